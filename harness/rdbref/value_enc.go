package rdbref

import (
	"fmt"
	"math"
	"strconv"
)

// kindOfType maps an RDB type byte to the logical kind it serialises.
func kindOfType(t byte) string {
	switch t {
	case TString:
		return "string"
	case TList, TListZiplist, TQuicklist:
		return "list"
	case TSet, TSetIntset:
		return "set"
	case TZSet, TZSet2, TZSetZiplist:
		return "zset"
	case THash, THashZipmap, THashZiplist:
		return "hash"
	case TStream:
		return "stream"
	}
	return ""
}

// EncodeValue serialises v in the requested encoding and returns the RDB type byte and the
// value body (the bytes that follow the key in an RDB file; no type byte, no trailer).
func EncodeValue(v Value, enc Enc) (typ byte, body []byte, err error) {
	typ = enc.Type
	kind := kindOfType(typ)
	if kind == "" {
		return typ, nil, fmt.Errorf("rdbref: cannot encode RDB type %d", typ)
	}
	if kind != v.Kind {
		return typ, nil, fmt.Errorf("rdbref: RDB type %d holds a %s, value is a %q", typ, kind, v.Kind)
	}
	switch typ {
	case TString:
		body, err = appendString(nil, v.Str, enc.Str, enc.Len)
	case TList:
		body, err = encStrings(v.List, enc)
	case TSet:
		body, err = encStrings(v.Set, enc)
	case TZSet, TZSet2:
		body, err = encZSet(v.ZSet, enc)
	case THash:
		body, err = encHash(v.Hash, enc)
	case TListZiplist:
		var zl []byte
		if zl, err = buildZiplist(v.List, enc.ZipInts, enc.ZipPrevlen5); err == nil {
			body, err = appendBlob(nil, zl, enc)
		}
	case TQuicklist:
		body, err = encQuicklist(v.List, enc)
	case TSetIntset:
		var is []byte
		if is, err = buildIntset(v.Set, enc.IntSize); err == nil {
			body, err = appendBlob(nil, is, enc)
		}
	case TZSetZiplist:
		elems := make([][]byte, 0, 2*len(v.ZSet))
		for _, m := range v.ZSet {
			elems = append(elems, m.Member, scoreText(m.Score))
		}
		var zl []byte
		if zl, err = buildZiplist(elems, enc.ZipInts, enc.ZipPrevlen5); err == nil {
			body, err = appendBlob(nil, zl, enc)
		}
	case THashZiplist:
		elems := make([][]byte, 0, 2*len(v.Hash))
		for _, f := range v.Hash {
			elems = append(elems, f.Field, f.Value)
		}
		var zl []byte
		if zl, err = buildZiplist(elems, enc.ZipInts, enc.ZipPrevlen5); err == nil {
			body, err = appendBlob(nil, zl, enc)
		}
	case THashZipmap:
		var zm []byte
		if zm, err = buildZipmap(v.Hash, enc.ZipmapFree); err == nil {
			body, err = appendBlob(nil, zm, enc)
		}
	case TStream:
		body = append([]byte{}, v.Stream...)
	}
	if err != nil {
		return typ, nil, err
	}
	return typ, body, nil
}

// appendBlob writes a ziplist / intset / zipmap blob as the single RDB string that carries it.
func appendBlob(dst, blob []byte, enc Enc) ([]byte, error) {
	if enc.BlobLZF {
		return appendString(dst, blob, StrLZF, enc.Len)
	}
	return appendString(dst, blob, StrRaw, enc.Len)
}

func sizeHint(n int, payload int) int { return 9 + payload + 9*n }

func encStrings(elems [][]byte, enc Enc) ([]byte, error) {
	total := 0
	for _, e := range elems {
		total += len(e)
	}
	buf := make([]byte, 0, sizeHint(len(elems), total))
	buf, err := appendLen(buf, uint64(len(elems)), enc.Len)
	if err != nil {
		return nil, err
	}
	for _, e := range elems {
		if buf, err = appendString(buf, e, enc.Str, enc.Len); err != nil {
			return nil, err
		}
	}
	return buf, nil
}

func encHash(pairs []HF, enc Enc) ([]byte, error) {
	total := 0
	for _, p := range pairs {
		total += len(p.Field) + len(p.Value)
	}
	buf := make([]byte, 0, sizeHint(2*len(pairs), total))
	buf, err := appendLen(buf, uint64(len(pairs)), enc.Len)
	if err != nil {
		return nil, err
	}
	for _, p := range pairs {
		if buf, err = appendString(buf, p.Field, enc.Str, enc.Len); err != nil {
			return nil, err
		}
		if buf, err = appendString(buf, p.Value, enc.Str, enc.Len); err != nil {
			return nil, err
		}
	}
	return buf, nil
}

func encZSet(ms []ZM, enc Enc) ([]byte, error) {
	total := 0
	for _, m := range ms {
		total += len(m.Member) + 26
	}
	buf := make([]byte, 0, sizeHint(len(ms), total))
	buf, err := appendLen(buf, uint64(len(ms)), enc.Len)
	if err != nil {
		return nil, err
	}
	for _, m := range ms {
		if buf, err = appendString(buf, m.Member, enc.Str, enc.Len); err != nil {
			return nil, err
		}
		if enc.Type == TZSet2 {
			u := math.Float64bits(m.Score)
			buf = append(buf,
				byte(u), byte(u>>8), byte(u>>16), byte(u>>24),
				byte(u>>32), byte(u>>40), byte(u>>48), byte(u>>56))
		} else {
			buf = appendScoreASCII(buf, m.Score)
		}
	}
	return buf, nil
}

// appendScoreASCII writes the type-3 score: one length byte and "%.17g" text, or one of the
// marker bytes 253 (nan), 254 (+inf), 255 (-inf).
func appendScoreASCII(dst []byte, f float64) []byte {
	switch {
	case math.IsNaN(f):
		return append(dst, 253)
	case math.IsInf(f, 1):
		return append(dst, 254)
	case math.IsInf(f, -1):
		return append(dst, 255)
	}
	var tmp [32]byte
	s := strconv.AppendFloat(tmp[:0], f, 'g', 17, 64)
	dst = append(dst, byte(len(s)))
	return append(dst, s...)
}

// scoreText renders a score the way Redis stores it inside a ziplist-encoded sorted set:
// "nan", "inf", "-inf", "-0", a plain integer when the value is integral and small enough
// to be exact, otherwise "%.17g".
func scoreText(f float64) []byte {
	switch {
	case math.IsNaN(f):
		return []byte("nan")
	case math.IsInf(f, 1):
		return []byte("inf")
	case math.IsInf(f, -1):
		return []byte("-inf")
	case f == 0:
		if math.Signbit(f) {
			return []byte("-0")
		}
		return []byte("0")
	}
	const lim = 1 << 52
	if f > -lim && f < lim && f == math.Trunc(f) {
		return strconv.AppendInt(nil, int64(f), 10)
	}
	return strconv.AppendFloat(nil, f, 'g', 17, 64)
}

func encQuicklist(elems [][]byte, enc Enc) ([]byte, error) {
	per := enc.QuicklistNode
	if per == 0 {
		per = 4
	}
	if per < 0 {
		return nil, fmt.Errorf("rdbref: quicklist node size %d", per)
	}
	nodes := (len(elems) + per - 1) / per
	total := 0
	for _, e := range elems {
		total += len(e) + 10
	}
	buf := make([]byte, 0, sizeHint(nodes, total)+nodes*12)
	buf, err := appendLen(buf, uint64(nodes), enc.Len)
	if err != nil {
		return nil, err
	}
	for i := 0; i < len(elems); i += per {
		j := i + per
		if j > len(elems) {
			j = len(elems)
		}
		zl, err := buildZiplist(elems[i:j], enc.ZipInts, enc.ZipPrevlen5)
		if err != nil {
			return nil, err
		}
		if buf, err = appendBlob(buf, zl, enc); err != nil {
			return nil, err
		}
	}
	return buf, nil
}
