package rdbref

import (
	"errors"
	"fmt"
	"strconv"
)

// Ziplist layout (ziplist.c):
//
//	<zlbytes u32 LE> <zltail u32 LE> <zllen u16 LE> <entry>... <0xFF>
//
// zlbytes is the size of the whole blob, zltail the offset of the last entry (the header
// size, 10, when empty), zllen the entry count or 0xFFFF when it is 65535 or more.
//
// Entry: <prevlen> <encoding> <payload>
//
//	prevlen   length of the previous entry: 1 byte when < 254, else 0xFE + u32 LE
//	encoding  00pppppp                      string, 6-bit length
//	          01pppppp qqqqqqqq             string, 14-bit length (big-endian)
//	          10______ + 4 bytes            string, 32-bit length (big-endian)
//	          0xC0 int16 LE, 0xD0 int32 LE, 0xE0 int64 LE, 0xF0 int24 LE, 0xFE int8
//	          0xF1..0xFD                    immediate integer 0..12
const zlHeaderSize = 10

// ---------------------------------------------------------------------------------------
// writer side

// zlTryInt mirrors zipTryEncoding: strings of 1..31 bytes that are canonical integers.
func zlTryInt(s []byte) (int64, bool) {
	if len(s) == 0 || len(s) >= 32 {
		return 0, false
	}
	return canonicalInt(s)
}

// appendZlInt appends encoding byte and payload using the smallest ziplist integer form.
func appendZlInt(dst []byte, v int64) []byte {
	switch {
	case v >= 0 && v <= 12:
		return append(dst, 0xF1+byte(v))
	case v >= -1<<7 && v < 1<<7:
		return append(dst, 0xFE, byte(v))
	case v >= -1<<15 && v < 1<<15:
		return append(dst, 0xC0, byte(v), byte(v>>8))
	case v >= -1<<23 && v < 1<<23:
		return append(dst, 0xF0, byte(v), byte(v>>8), byte(v>>16))
	case v >= -1<<31 && v < 1<<31:
		return append(dst, 0xD0, byte(v), byte(v>>8), byte(v>>16), byte(v>>24))
	}
	return append(dst, 0xE0,
		byte(v), byte(v>>8), byte(v>>16), byte(v>>24),
		byte(v>>32), byte(v>>40), byte(v>>48), byte(v>>56))
}

// buildZiplist serialises elems as a ziplist blob.
func buildZiplist(elems [][]byte, zipInts, prevlen5 bool) ([]byte, error) {
	est := zlHeaderSize + 1
	for _, e := range elems {
		est += len(e) + 10
	}
	buf := make([]byte, zlHeaderSize, est)
	tail := zlHeaderSize
	prev := 0
	for _, e := range elems {
		start := len(buf)
		tail = start
		if prev < 254 && !prevlen5 {
			buf = append(buf, byte(prev))
		} else {
			buf = append(buf, 0xFE, byte(prev), byte(prev>>8), byte(prev>>16), byte(prev>>24))
		}
		if v, ok := zlTryInt(e); ok && zipInts {
			buf = appendZlInt(buf, v)
		} else {
			n := len(e)
			switch {
			case n < 1<<6:
				buf = append(buf, byte(n))
			case n < 1<<14:
				buf = append(buf, 0x40|byte(n>>8), byte(n))
			case uint64(n) <= 0xFFFFFFFF:
				buf = append(buf, 0x80, byte(n>>24), byte(n>>16), byte(n>>8), byte(n))
			default:
				return nil, errors.New("rdbref: ziplist element longer than 4 GiB")
			}
			buf = append(buf, e...)
		}
		prev = len(buf) - start
	}
	buf = append(buf, 0xFF)
	if uint64(len(buf)) > 0xFFFFFFFF {
		return nil, errors.New("rdbref: ziplist larger than 4 GiB")
	}
	total := uint32(len(buf))
	buf[0], buf[1], buf[2], buf[3] = byte(total), byte(total>>8), byte(total>>16), byte(total>>24)
	buf[4], buf[5], buf[6], buf[7] = byte(tail), byte(tail>>8), byte(tail>>16), byte(tail>>24)
	count := len(elems)
	if count >= 0xFFFF {
		count = 0xFFFF
	}
	buf[8], buf[9] = byte(count), byte(count>>8)
	return buf, nil
}

// ---------------------------------------------------------------------------------------
// reader side

// parseZiplist walks a ziplist blob front to back and returns the logical elements; integer
// entries are rendered in decimal.  The header fields and every prevlen are cross-checked
// against what the walk actually finds.
func parseZiplist(b []byte) ([][]byte, error) {
	if len(b) < zlHeaderSize+1 {
		return nil, fmt.Errorf("rdbref: ziplist: blob of %d bytes is too short", len(b))
	}
	le32 := func(o int) uint64 {
		return uint64(b[o]) | uint64(b[o+1])<<8 | uint64(b[o+2])<<16 | uint64(b[o+3])<<24
	}
	zlbytes, zltail := le32(0), le32(4)
	zllen := int(b[8]) | int(b[9])<<8
	if zlbytes != uint64(len(b)) {
		return nil, fmt.Errorf("rdbref: ziplist: zlbytes=%d but blob has %d bytes", zlbytes, len(b))
	}
	end := len(b) - 1 // position the terminator must occupy

	capHint := zllen
	if capHint > len(b)/2 {
		capHint = len(b) / 2
	}
	out := make([][]byte, 0, capHint)
	p := zlHeaderSize
	lastStart := zlHeaderSize
	prevSize := uint64(0)
	for {
		if p > end {
			return nil, errors.New("rdbref: ziplist: missing terminator")
		}
		if b[p] == 0xFF {
			if p != end {
				return nil, fmt.Errorf("rdbref: ziplist: terminator at %d, %d trailing bytes", p, end-p)
			}
			break
		}
		start := p
		// prevlen
		var pl uint64
		if b[p] < 0xFE {
			pl = uint64(b[p])
			p++
		} else {
			if p+5 > end {
				return nil, errors.New("rdbref: ziplist: truncated prevlen")
			}
			pl = le32(p + 1)
			p += 5
		}
		if pl != prevSize {
			return nil, fmt.Errorf("rdbref: ziplist: entry at %d has prevlen %d, previous entry is %d bytes", start, pl, prevSize)
		}
		if p >= end {
			return nil, errors.New("rdbref: ziplist: truncated entry")
		}
		e := b[p]
		p++
		var elem []byte
		if e < 0xC0 { // string
			var n uint64
			switch e >> 6 {
			case 0:
				n = uint64(e & 0x3f)
			case 1:
				if p >= end {
					return nil, errors.New("rdbref: ziplist: truncated string header")
				}
				n = uint64(e&0x3f)<<8 | uint64(b[p])
				p++
			default:
				if p+4 > end {
					return nil, errors.New("rdbref: ziplist: truncated string header")
				}
				n = uint64(b[p])<<24 | uint64(b[p+1])<<16 | uint64(b[p+2])<<8 | uint64(b[p+3])
				p += 4
			}
			if n > uint64(end-p) {
				return nil, fmt.Errorf("rdbref: ziplist: string of %d bytes at %d overruns the blob", n, start)
			}
			elem = make([]byte, n)
			copy(elem, b[p:p+int(n)])
			p += int(n)
		} else { // integer
			var width int
			switch {
			case e == 0xC0:
				width = 2
			case e == 0xD0:
				width = 4
			case e == 0xE0:
				width = 8
			case e == 0xF0:
				width = 3
			case e == 0xFE:
				width = 1
			case e >= 0xF1 && e <= 0xFD:
				width = 0
			default:
				return nil, fmt.Errorf("rdbref: ziplist: unknown entry encoding 0x%02x at %d", e, start)
			}
			if width > end-p {
				return nil, errors.New("rdbref: ziplist: truncated integer entry")
			}
			var v int64
			if width == 0 {
				v = int64(e&0x0f) - 1
			} else {
				var u uint64
				for i := width - 1; i >= 0; i-- {
					u = u<<8 | uint64(b[p+i])
				}
				shift := uint(64 - 8*width)
				v = int64(u<<shift) >> shift // sign-extend
				p += width
			}
			elem = strconv.AppendInt(nil, v, 10)
		}
		out = append(out, elem)
		lastStart = start
		prevSize = uint64(p - start)
	}
	if zltail != uint64(lastStart) {
		return nil, fmt.Errorf("rdbref: ziplist: zltail=%d but the last entry starts at %d", zltail, lastStart)
	}
	if zllen != 0xFFFF && zllen != len(out) {
		return nil, fmt.Errorf("rdbref: ziplist: zllen=%d but %d entries found", zllen, len(out))
	}
	return out, nil
}
