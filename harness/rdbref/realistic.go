package rdbref

// RealisticEncodings is EncodingsFor restricted to what a Redis server can emit: the 64-bit
// length form is used by Redis only for numbers above 2^32 (stream ids, module ids), never for a
// length or count that fits in 32 bits.
func RealisticEncodings(kind string) []Enc {
	var out []Enc
	for _, e := range EncodingsFor(kind) {
		if e.Len == Len64 {
			continue
		}
		out = append(out, e)
	}
	return out
}
