package rdbref

// RealisticEncodings is EncodingsFor restricted to what a Redis server can emit: the 64-bit
// length form is used by Redis only for numbers above 2^32 (stream ids, module ids), never for a
// length or count that fits in 32 bits.
func RealisticEncodings(kind string) []Enc {
	var out []Enc
	for _, e := range EncodingsFor(kind) {
		if e.Len == Len64 {
			continue
		}
		out = append(out, e)
	}
	return out
}

// KeyStr is Key with a chosen string form for the key name itself (a Redis server stores key names
// with the same string encoder as values: integer-encoded when numeric, LZF when long and compressible).
func (f *File) KeyStr(key []byte, sf StrForm, lf LenForm, typ byte, body []byte) (bodyStart, bodyEnd int) {
	f.buf.WriteByte(typ)
	enc, err := appendString(nil, key, sf, lf)
	if err != nil {
		enc, _ = appendString(nil, key, StrRaw, LenCanonical)
	}
	f.buf.Write(enc)
	bodyStart = f.buf.Len()
	f.buf.Write(body)
	return bodyStart, f.buf.Len()
}

// AuxStr writes an aux field whose value uses the given string form.
func (f *File) AuxStr(key, val []byte, sf StrForm) {
	f.buf.WriteByte(OpAux)
	f.putString(key, LenCanonical)
	enc, err := appendString(nil, val, sf, LenCanonical)
	if err != nil {
		enc, _ = appendString(nil, val, StrRaw, LenCanonical)
	}
	f.buf.Write(enc)
}
