package rdbref

// Optional helper (not needed by DecodeValue, which treats stream listpacks as opaque):
// a writer for the listpack of one stream radix-tree node, so that harnesses can build
// streams a real Redis (or a tool that walks the entries) can load.
//
// Listpack (listpack.c):
//
//	<total bytes u32 LE> <num elements u16 LE, 0xFFFF = unknown> <element>... <0xFF>
//	element = <encoding + payload> <backlen>
//	  0xxxxxxx                      7-bit unsigned integer
//	  10xxxxxx + bytes              string, 6-bit length
//	  110xxxxx yyyyyyyy             13-bit signed integer (big-endian, two's complement)
//	  1110xxxx yyyyyyyy + bytes     string, 12-bit length
//	  0xF0 + u32 LE + bytes         string, 32-bit length
//	  0xF1 int16, 0xF2 int24, 0xF3 int32, 0xF4 int64   little-endian integers
//	backlen = size of <encoding + payload> in 7-bit groups, most significant group first,
//	          every byte but the first carrying the 0x80 flag (so it reads right to left).
//
// Stream node (t_stream.c):
//
//	master entry: count, deleted, num-fields, field_1 .. field_N, 0
//	entry:        flags, ms-diff, seq-diff,
//	              [num-fields, field_1, value_1, .. ]   when flags lacks SAMEFIELDS (2)
//	              [value_1 .. value_N]                  when the fields equal the master's
//	              lp-count (elements in this entry, itself excluded)
//	flags: 1 = deleted, 2 = same fields as the master entry.

// StreamEntry is one stream item for BuildStreamListpack.
type StreamEntry struct {
	Ms, Seq uint64
	Fields  []HF
	Deleted bool
}

func lpAppendBacklen(dst []byte, l int) []byte {
	switch {
	case l <= 127:
		return append(dst, byte(l))
	case l < 16383:
		return append(dst, byte(l>>7), byte(l&127)|128)
	case l < 2097151:
		return append(dst, byte(l>>14), byte((l>>7)&127)|128, byte(l&127)|128)
	case l < 268435455:
		return append(dst, byte(l>>21), byte((l>>14)&127)|128, byte((l>>7)&127)|128, byte(l&127)|128)
	}
	return append(dst, byte(l>>28), byte((l>>21)&127)|128, byte((l>>14)&127)|128, byte((l>>7)&127)|128, byte(l&127)|128)
}

func lpAppendInt(dst []byte, v int64) []byte {
	start := len(dst)
	switch {
	case v >= 0 && v <= 127:
		dst = append(dst, byte(v))
	case v >= -4096 && v <= 4095:
		u := uint16(v) & 0x1FFF
		dst = append(dst, 0xC0|byte(u>>8), byte(u))
	case v >= -1<<15 && v < 1<<15:
		dst = append(dst, 0xF1, byte(v), byte(v>>8))
	case v >= -1<<23 && v < 1<<23:
		dst = append(dst, 0xF2, byte(v), byte(v>>8), byte(v>>16))
	case v >= -1<<31 && v < 1<<31:
		dst = append(dst, 0xF3, byte(v), byte(v>>8), byte(v>>16), byte(v>>24))
	default:
		dst = append(dst, 0xF4, byte(v), byte(v>>8), byte(v>>16), byte(v>>24),
			byte(v>>32), byte(v>>40), byte(v>>48), byte(v>>56))
	}
	return lpAppendBacklen(dst, len(dst)-start)
}

// lpAppendString appends s the way lpAppend does: as an integer when s is the canonical
// text of one, otherwise as a string.
func lpAppendString(dst, s []byte) []byte {
	if v, ok := canonicalInt(s); ok {
		return lpAppendInt(dst, v)
	}
	start := len(dst)
	n := len(s)
	switch {
	case n < 64:
		dst = append(dst, 0x80|byte(n))
	case n < 4096:
		dst = append(dst, 0xE0|byte(n>>8), byte(n))
	default:
		dst = append(dst, 0xF0, byte(n), byte(n>>8), byte(n>>16), byte(n>>24))
	}
	dst = append(dst, s...)
	return lpAppendBacklen(dst, len(dst)-start)
}

// BuildStreamListpack builds one stream node from entries (ascending IDs, at least one).
// The first entry provides the master ID and the master field names; later entries with the
// same field names in the same order are stored in the compact SAMEFIELDS form.
func BuildStreamListpack(entries []StreamEntry) StreamListpack {
	var node StreamListpack
	var master StreamEntry
	if len(entries) > 0 {
		master = entries[0]
	}
	node.MasterID = StreamID(master.Ms, master.Seq)

	live, dead := int64(0), int64(0)
	for _, e := range entries {
		if e.Deleted {
			dead++
		} else {
			live++
		}
	}
	buf := make([]byte, 6, 64)
	elems := 0
	putInt := func(v int64) { buf = lpAppendInt(buf, v); elems++ }
	putStr := func(s []byte) { buf = lpAppendString(buf, s); elems++ }

	putInt(live)
	putInt(dead)
	putInt(int64(len(master.Fields)))
	for _, f := range master.Fields {
		putStr(f.Field)
	}
	putInt(0)

	for _, e := range entries {
		same := len(e.Fields) == len(master.Fields)
		for i := 0; same && i < len(e.Fields); i++ {
			same = string(e.Fields[i].Field) == string(master.Fields[i].Field)
		}
		flags := int64(0)
		if e.Deleted {
			flags |= 1
		}
		if same {
			flags |= 2
		}
		putInt(flags)
		putInt(int64(e.Ms - master.Ms))
		putInt(int64(e.Seq - master.Seq))
		n := int64(len(e.Fields))
		if same {
			for _, f := range e.Fields {
				putStr(f.Value)
			}
			putInt(n + 3)
		} else {
			putInt(n)
			for _, f := range e.Fields {
				putStr(f.Field)
				putStr(f.Value)
			}
			putInt(2*n + 4)
		}
	}
	buf = append(buf, 0xFF)
	total := uint32(len(buf))
	buf[0], buf[1], buf[2], buf[3] = byte(total), byte(total>>8), byte(total>>16), byte(total>>24)
	if elems > 0xFFFF {
		elems = 0xFFFF
	}
	buf[4], buf[5] = byte(elems), byte(elems>>8)
	node.Listpack = buf
	return node
}
