package rdbref

import (
	"bytes"
	"math"
	"math/rand"
	"testing"
	"time"
)

// ---------------------------------------------------------------------------------------
// checksums and slots

func TestCRCCheckValues(t *testing.T) {
	if got := CRC64(0, []byte("123456789")); got != 0xe9c6d914c4b8d9ca {
		t.Fatalf("CRC64 check = %#x", got)
	}
	// Incremental use gives the same result.
	if got := CRC64(CRC64(0, []byte("1234")), []byte("56789")); got != 0xe9c6d914c4b8d9ca {
		t.Fatalf("incremental CRC64 = %#x", got)
	}
	if CRC64(0, nil) != 0 {
		t.Fatal("CRC64 of nothing must be 0")
	}
	if got := CRC16([]byte("123456789")); got != 0x31C3 {
		t.Fatalf("CRC16 check = %#x", got)
	}
}

func TestKeySlot(t *testing.T) {
	slot := func(s string) int { return KeySlot([]byte(s)) }
	whole := func(s string) int { return int(CRC16([]byte(s))) % 16384 }

	if slot("123456789") != 0x31C3%16384 {
		t.Fatal("slot of the CRC16 anchor")
	}
	// Tag rule, asserted structurally.
	cases := []struct{ key, hashed string }{
		{"foo", "foo"},
		{"", ""},
		{"{user1000}.following", "user1000"},
		{"{user1000}.followers", "user1000"},
		{"foo{bar}baz", "bar"},
		{"foo{}{bar}", "foo{}{bar}"}, // first {} is empty: whole key
		{"foo{{bar}}zap", "{bar"},    // first '{' to first '}' after it
		{"foo{bar}{zap}", "bar"},     // only the first tag counts
		{"{}", "{}"},                 // empty tag
		{"{", "{"},                   // no closing brace
		{"}{", "}{"},                 // '}' before '{' does not count
		{"}a{b}", "b"},               // ... but a later one does
		{"a{b", "a{b"},               // unterminated
		{"{a}", "a"},                 //
		{"x{\x00}y", "\x00"},         // binary safe
	}
	for _, c := range cases {
		if got, want := slot(c.key), whole(c.hashed); got != want {
			t.Errorf("KeySlot(%q) = %d, want slot of %q = %d", c.key, got, c.hashed, want)
		}
	}
	for i := 0; i < 1000; i++ {
		if s := slot(string(rune('a'+i%26)) + time.Duration(i).String()); s < 0 || s >= 16384 {
			t.Fatalf("slot out of range: %d", s)
		}
	}
	// Widely published slot numbers (redis-cli redirects, the cluster spec): an independent
	// cross-check of the CRC16 variant.
	if slot("foo") != 12182 {
		t.Errorf("KeySlot(foo) = %d, documented 12182", slot("foo"))
	}
	if slot("somekey") != 11058 {
		t.Errorf("KeySlot(somekey) = %d, documented 11058", slot("somekey"))
	}
	if slot("foo{hash_tag}") != 2515 || slot("bar{hash_tag}") != 2515 {
		t.Errorf("KeySlot(foo{hash_tag}) = %d, documented 2515", slot("foo{hash_tag}"))
	}
}

// ---------------------------------------------------------------------------------------
// LZF

func TestLZFRoundTrip(t *testing.T) {
	r := rand.New(rand.NewSource(1))
	inputs := [][]byte{
		{}, {0}, {1, 2}, {1, 2, 3}, bytes.Repeat([]byte{'a'}, 1000), bytes.Repeat([]byte("abc"), 5000),
		bytes.Repeat([]byte{0xFF}, 264), bytes.Repeat([]byte{0xFF}, 265), bytes.Repeat([]byte{7}, 9000),
	}
	for i := 0; i < 300; i++ {
		inputs = append(inputs, randElem(r, 2000))
	}
	big := make([]byte, 100000) // incompressible
	r.Read(big)
	inputs = append(inputs, big)
	// A repeat further back than the 8192-byte window.
	far := append(append([]byte{}, big[:9000]...), big[:9000]...)
	inputs = append(inputs, far)

	for i, in := range inputs {
		c := LZFCompress(in)
		out, err := LZFDecompress(c, len(in))
		if err != nil {
			t.Fatalf("input %d (%d bytes): %v", i, len(in), err)
		}
		if !bytes.Equal(out, in) {
			t.Fatalf("input %d (%d bytes): round trip differs", i, len(in))
		}
		if len(c) > len(in)+len(in)/32+1 {
			t.Fatalf("input %d: %d bytes grew to %d", i, len(in), len(c))
		}
		if _, err := LZFDecompress(c, len(in)+1); err == nil {
			t.Fatalf("input %d: wrong declared length accepted", i)
		}
		if len(in) > 0 {
			if _, err := LZFDecompress(c, len(in)-1); err == nil {
				t.Fatalf("input %d: short declared length accepted", i)
			}
		}
	}
	if c := LZFCompress(bytes.Repeat([]byte{'a'}, 1000)); len(c) > 20 {
		t.Fatalf("1000 x 'a' compressed to %d bytes", len(c))
	}
}

func TestLZFVectors(t *testing.T) {
	cases := []struct {
		in   []byte
		n    int
		want string
	}{
		{[]byte{0x02, 'a', 'b', 'c'}, 3, "abc"},
		// literal "a", then back reference distance 1 (off 0), length 7+0+2 = 9.
		{[]byte{0x00, 'a', 0xE0, 0x00, 0x00}, 10, "aaaaaaaaaa"},
		// literal "ab", reference len 1+2=3 at distance 2 -> "aba".
		{[]byte{0x01, 'a', 'b', 0x20, 0x01}, 5, "ababa"},
		// high offset bits: 300 literals then a reference 257 back.
	}
	for i, c := range cases {
		out, err := LZFDecompress(c.in, c.n)
		if err != nil || string(out) != c.want {
			t.Errorf("vector %d: %q, %v; want %q", i, out, err, c.want)
		}
	}
	bad := [][]byte{
		{0x05, 'a'},             // literal run past the end
		{0x20, 0x00},            // reference with nothing before it
		{0x00, 'a', 0xE0},       // truncated long reference
		{0x00, 'a', 0x20},       // truncated reference
		{0x00, 'a', 0x20, 0x05}, // reference before the start
	}
	for i, b := range bad {
		if _, err := LZFDecompress(b, 8); err == nil {
			t.Errorf("bad vector %d accepted", i)
		}
	}
	if _, err := LZFDecompress([]byte{0}, -1); err == nil {
		t.Error("negative length accepted")
	}
	if _, err := LZFDecompress([]byte{0, 'a'}, 1<<40); err == nil {
		t.Error("absurd length accepted")
	}
}

// ---------------------------------------------------------------------------------------
// DUMP payloads

func TestDump(t *testing.T) {
	body := []byte{0x03, 'a', 'b', 'c'}
	p := Dump(TString, body, 9)
	if len(p) != 1+len(body)+10 || p[0] != TString || p[5] != 9 || p[6] != 0 {
		t.Fatalf("payload % x", p)
	}
	typ, b, ver, err := ParseDump(p)
	if err != nil || typ != TString || ver != 9 || !bytes.Equal(b, body) {
		t.Fatalf("ParseDump = %d % x %d %v", typ, b, ver, err)
	}
	if _, _, ver, _ := ParseDump(Dump(1, nil, 0x1234)); ver != 0x1234 {
		t.Fatalf("version %#x", ver)
	}
	for i := range p {
		for bit := uint(0); bit < 8; bit++ {
			q := append([]byte{}, p...)
			q[i] ^= 1 << bit
			if _, _, _, err := ParseDump(q); err == nil {
				t.Fatalf("corruption of byte %d bit %d not detected", i, bit)
			}
		}
	}
	if _, _, _, err := ParseDump(p[:10]); err == nil {
		t.Fatal("short payload accepted")
	}
	if _, _, _, err := ParseDump(nil); err == nil {
		t.Fatal("nil payload accepted")
	}
	// Minimal payload: empty body.
	if typ, b, _, err := ParseDump(Dump(7, nil, 6)); err != nil || typ != 7 || len(b) != 0 {
		t.Fatalf("empty body: %d % x %v", typ, b, err)
	}
}

// ---------------------------------------------------------------------------------------
// round trips

func TestRoundTripRandom(t *testing.T) {
	r := rand.New(rand.NewSource(42))
	kinds := []string{"string", "string:int", "list", "list:int", "set", "set:int", "zset", "zset:nan",
		"zset:int", "hash", "hash:int", "stream"}
	sizes := []int{0, 1, 2, 5, 40, 300}
	encoded, skipped := 0, 0
	perType := map[byte]int{}
	for _, kind := range kinds {
		encs := EncodingsFor(kind)
		if len(encs) == 0 {
			t.Fatalf("no encodings for %s", kind)
		}
		for _, n := range sizes {
			for _, maxElem := range []int{0, 8, 70, 400} {
				if n == 40 && maxElem == 400 {
					maxElem = 20000 // crosses the 14-bit limits
				}
				v := RandValue(r, kind, n, maxElem)
				for _, enc := range encs {
					typ, body, err := EncodeValue(v, enc)
					if err != nil {
						skipped++
						continue
					}
					encoded++
					perType[typ]++
					if typ != enc.Type {
						t.Fatalf("type %d != requested %d", typ, enc.Type)
					}
					got, consumed, err := DecodeValue(typ, body)
					if err != nil {
						t.Fatalf("%s n=%d enc=%+v: decode: %v", kind, n, enc, err)
					}
					if consumed != len(body) {
						t.Fatalf("%s n=%d enc=%+v: consumed %d of %d", kind, n, enc, consumed, len(body))
					}
					if !Equal(got, v) {
						t.Fatalf("%s n=%d enc=%+v:\n got %s\nwant %s", kind, n, enc, got.Canon(), v.Canon())
					}
					if got.Canon() != v.Canon() {
						t.Fatalf("%s: Equal but Canon differs", kind)
					}
					// Trailing bytes are not consumed.
					got2, consumed2, err := DecodeValue(typ, append(append([]byte{}, body...), 0xAA, 0xBB))
					if err != nil || consumed2 != len(body) || !Equal(got2, v) {
						t.Fatalf("%s enc=%+v: with trailing bytes: consumed %d, %v", kind, enc, consumed2, err)
					}
				}
			}
		}
	}
	for _, typ := range []byte{0, 1, 2, 3, 4, 5, 9, 10, 11, 12, 13, 14, 15} {
		if perType[typ] < 10 {
			t.Errorf("type %d round-tripped only %d times", typ, perType[typ])
		}
	}
	t.Logf("%d encodings round-tripped, %d combinations not representable; per type %v", encoded, skipped, perType)
}

// Every strict prefix of a valid body must be rejected (never panic, never succeed with the
// full length), and random corruption must never panic.
func TestTruncationAndGarbage(t *testing.T) {
	r := rand.New(rand.NewSource(7))
	for _, kind := range []string{"string", "list", "set:int", "zset", "hash", "stream"} {
		v := RandValue(r, kind, 6, 40)
		for _, enc := range EncodingsFor(kind) {
			typ, body, err := EncodeValue(v, enc)
			if err != nil {
				continue
			}
			for cut := 0; cut < len(body); cut++ {
				if _, n, err := DecodeValue(typ, body[:cut]); err == nil && n > cut {
					t.Fatalf("type %d: prefix %d/%d consumed %d", typ, cut, len(body), n)
				} else if err == nil && typ != TString {
					// Only a shorter valid value may hide in a prefix; collections carry
					// their count up front so this cannot happen.
					t.Fatalf("type %d: prefix %d/%d accepted", typ, cut, len(body))
				}
			}
			for i := 0; i < 200; i++ {
				q := append([]byte{}, body...)
				for k := 1 + r.Intn(3); k > 0 && len(q) > 0; k-- {
					q[r.Intn(len(q))] = byte(r.Intn(256))
				}
				DecodeValue(typ, q) // must not panic
			}
		}
	}
	for typ := 0; typ < 20; typ++ {
		for i := 0; i < 2000; i++ {
			q := make([]byte, r.Intn(40))
			r.Read(q)
			DecodeValue(byte(typ), q)
		}
	}
	if _, _, err := DecodeValue(TModule2, []byte{0}); err == nil {
		t.Fatal("module type accepted")
	}
	if _, _, err := EncodeValue(Value{Kind: "list"}, Enc{Type: TSet}); err == nil {
		t.Fatal("kind/type mismatch accepted")
	}
}

func TestEqualAndCanon(t *testing.T) {
	b := func(s string) []byte { return []byte(s) }
	nz := math.Copysign(0, -1)
	same := [][2]Value{
		{{Kind: "set", Set: [][]byte{b("a"), b("b")}}, {Kind: "set", Set: [][]byte{b("b"), b("a")}}},
		{{Kind: "hash", Hash: []HF{{b("a"), b("1")}, {b("b"), b("2")}}}, {Kind: "hash", Hash: []HF{{b("b"), b("2")}, {b("a"), b("1")}}}},
		{{Kind: "zset", ZSet: []ZM{{b("a"), math.NaN()}, {b("b"), nz}}}, {Kind: "zset", ZSet: []ZM{{b("b"), nz}, {b("a"), math.Float64frombits(0x7ff8000000000123)}}}},
		{{Kind: "list"}, {Kind: "list", List: [][]byte{}}},
		{{Kind: "string", Str: nil}, {Kind: "string", Str: []byte{}}},
	}
	for i, p := range same {
		if !Equal(p[0], p[1]) || !Equal(p[1], p[0]) || p[0].Canon() != p[1].Canon() {
			t.Errorf("pair %d should be equal: %s / %s", i, p[0].Canon(), p[1].Canon())
		}
	}
	diff := [][2]Value{
		{{Kind: "list", List: [][]byte{b("a"), b("b")}}, {Kind: "list", List: [][]byte{b("b"), b("a")}}},
		{{Kind: "set", Set: [][]byte{b("a")}}, {Kind: "list", List: [][]byte{b("a")}}},
		{{Kind: "set", Set: [][]byte{b("a"), b("a")}}, {Kind: "set", Set: [][]byte{b("a"), b("b")}}},
		{{Kind: "zset", ZSet: []ZM{{b("a"), 0}}}, {Kind: "zset", ZSet: []ZM{{b("a"), nz}}}},
		{{Kind: "zset", ZSet: []ZM{{b("a"), 1}}}, {Kind: "zset", ZSet: []ZM{{b("a"), math.Nextafter(1, 2)}}}},
		{{Kind: "hash", Hash: []HF{{b("a"), b("1")}}}, {Kind: "hash", Hash: []HF{{b("a"), b("2")}}}},
		{{Kind: "hash", Hash: []HF{{b("a,"), b("")}}}, {Kind: "hash", Hash: []HF{{b("a"), b(",")}}}},
		{{Kind: "string", Str: b("\xff")}, {Kind: "string", Str: b("\xef\xbf\xbd")}},
		{{Kind: "list", List: [][]byte{b("a\", \"b")}}, {Kind: "list", List: [][]byte{b("a"), b("b")}}},
		{{Kind: "stream", Stream: []byte{0}}, {Kind: "stream", Stream: []byte{1}}},
	}
	for i, p := range diff {
		if Equal(p[0], p[1]) || Equal(p[1], p[0]) || p[0].Canon() == p[1].Canon() {
			t.Errorf("pair %d should differ: %s / %s", i, p[0].Canon(), p[1].Canon())
		}
	}
	want := `zset {"a\xff": -0, "b": 1.5}`
	if got := (Value{Kind: "zset", ZSet: []ZM{{b("b"), 1.5}, {b("a\xff"), nz}}}).Canon(); got != want {
		t.Errorf("Canon = %s, want %s", got, want)
	}
}
