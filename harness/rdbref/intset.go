package rdbref

import (
	"fmt"
	"sort"
	"strconv"
)

// Intset layout (intset.c):
//
//	<encoding u32 LE: 2, 4 or 8> <length u32 LE> <length little-endian signed integers,
//	strictly ascending>

// ---------------------------------------------------------------------------------------
// writer side

// buildIntset serialises members, which must all be canonical integers and distinct.
// width 0 selects the narrowest encoding that fits every member.
func buildIntset(members [][]byte, width int) ([]byte, error) {
	vals := make([]int64, len(members))
	need := 2
	for i, m := range members {
		v, ok := canonicalInt(m)
		if !ok {
			return nil, fmt.Errorf("rdbref: intset: member %q is not a canonical integer", m)
		}
		vals[i] = v
		switch {
		case v >= -1<<15 && v < 1<<15:
		case v >= -1<<31 && v < 1<<31:
			if need < 4 {
				need = 4
			}
		default:
			need = 8
		}
	}
	switch width {
	case 0:
		width = need
	case 2, 4, 8:
		if width < need {
			return nil, fmt.Errorf("rdbref: intset: members need %d-byte elements, %d requested", need, width)
		}
	default:
		return nil, fmt.Errorf("rdbref: intset: invalid element width %d", width)
	}
	sort.Slice(vals, func(i, j int) bool { return vals[i] < vals[j] })
	for i := 1; i < len(vals); i++ {
		if vals[i] == vals[i-1] {
			return nil, fmt.Errorf("rdbref: intset: duplicate member %d", vals[i])
		}
	}
	if uint64(len(vals)) > 0xFFFFFFFF {
		return nil, fmt.Errorf("rdbref: intset: too many members")
	}
	buf := make([]byte, 8, 8+width*len(vals))
	buf[0] = byte(width)
	n := uint32(len(vals))
	buf[4], buf[5], buf[6], buf[7] = byte(n), byte(n>>8), byte(n>>16), byte(n>>24)
	for _, v := range vals {
		for i := 0; i < width; i++ {
			buf = append(buf, byte(v>>(8*uint(i))))
		}
	}
	return buf, nil
}

// ---------------------------------------------------------------------------------------
// reader side

// parseIntset returns the members, rendered in decimal, in stored order.
func parseIntset(b []byte) ([][]byte, error) {
	if len(b) < 8 {
		return nil, fmt.Errorf("rdbref: intset: blob of %d bytes is too short", len(b))
	}
	width := uint64(b[0]) | uint64(b[1])<<8 | uint64(b[2])<<16 | uint64(b[3])<<24
	count := uint64(b[4]) | uint64(b[5])<<8 | uint64(b[6])<<16 | uint64(b[7])<<24
	if width != 2 && width != 4 && width != 8 {
		return nil, fmt.Errorf("rdbref: intset: invalid encoding %d", width)
	}
	if uint64(len(b)-8) != width*count {
		return nil, fmt.Errorf("rdbref: intset: %d members of %d bytes do not fill %d payload bytes", count, width, len(b)-8)
	}
	out := make([][]byte, 0, count)
	w := int(width)
	shift := uint(64 - 8*w)
	var last int64
	for i, p := 0, 8; p < len(b); i, p = i+1, p+w {
		var u uint64
		for k := w - 1; k >= 0; k-- {
			u = u<<8 | uint64(b[p+k])
		}
		v := int64(u<<shift) >> shift
		if i > 0 && v <= last {
			return nil, fmt.Errorf("rdbref: intset: member %d (%d) is not greater than its predecessor %d", i, v, last)
		}
		last = v
		out = append(out, strconv.AppendInt(nil, v, 10))
	}
	return out, nil
}
