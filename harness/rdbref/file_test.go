package rdbref

import (
	"bytes"
	"encoding/binary"
	"fmt"
	"math"
	"math/rand"
	"testing"
	"time"
)

// walked is what the test-local RDB walker reports for one key.
type walked struct {
	db       uint64
	key      string
	typ      byte
	expireMs uint64
	hasExp   bool
	idle     uint64
	freq     int
	value    Value
	start    int
	end      int
}

type walkResult struct {
	version int
	aux     map[string]string
	resize  [][2]uint64
	modules []uint64
	keys    []walked
	eofAt   int
}

// walkLen is the walker's own length reader, written independently of len.go.
func walkLen(b []byte, p int) (uint64, int, error) {
	if p >= len(b) {
		return 0, p, fmt.Errorf("short")
	}
	switch c := b[p]; {
	case c < 0x40:
		return uint64(c), p + 1, nil
	case c < 0x80:
		if p+2 > len(b) {
			return 0, p, fmt.Errorf("short")
		}
		return uint64(c&0x3f)<<8 | uint64(b[p+1]), p + 2, nil
	case c == 0x80:
		if p+5 > len(b) {
			return 0, p, fmt.Errorf("short")
		}
		return uint64(binary.BigEndian.Uint32(b[p+1:])), p + 5, nil
	case c == 0x81:
		if p+9 > len(b) {
			return 0, p, fmt.Errorf("short")
		}
		return binary.BigEndian.Uint64(b[p+1:]), p + 9, nil
	default:
		return 0, p, fmt.Errorf("bad length byte %#x at %d", c, p)
	}
}

func walkStr(b []byte, p int) ([]byte, int, error) {
	n, p, err := walkLen(b, p)
	if err != nil {
		return nil, p, err
	}
	if n > uint64(len(b)-p) {
		return nil, p, fmt.Errorf("short string")
	}
	return b[p : p+int(n)], p + int(n), nil
}

func walkFile(b []byte, checkCRC bool) (*walkResult, error) {
	if len(b) < 9 || string(b[:5]) != "REDIS" {
		return nil, fmt.Errorf("bad magic")
	}
	res := &walkResult{aux: map[string]string{}}
	fmt.Sscanf(string(b[5:9]), "%d", &res.version)
	p := 9
	var cur walked
	cur.freq = -1
	var db uint64
	for {
		if p >= len(b) {
			return nil, fmt.Errorf("no EOF opcode")
		}
		op := b[p]
		p++
		var err error
		switch op {
		case OpEOF:
			res.eofAt = p - 1
			if len(b)-p != 8 {
				return nil, fmt.Errorf("%d bytes after EOF", len(b)-p)
			}
			sum := binary.LittleEndian.Uint64(b[p:])
			if checkCRC && sum != CRC64(0, b[:p]) {
				return nil, fmt.Errorf("file checksum mismatch")
			}
			if !checkCRC && sum != 0 {
				return nil, fmt.Errorf("checksum should be zero")
			}
			return res, nil
		case OpAux:
			var k, v []byte
			if k, p, err = walkStr(b, p); err != nil {
				return nil, err
			}
			if v, p, err = walkStr(b, p); err != nil {
				return nil, err
			}
			res.aux[string(k)] = string(v)
		case OpSelectDB:
			if db, p, err = walkLen(b, p); err != nil {
				return nil, err
			}
		case OpResizeDB:
			var a, c uint64
			if a, p, err = walkLen(b, p); err != nil {
				return nil, err
			}
			if c, p, err = walkLen(b, p); err != nil {
				return nil, err
			}
			res.resize = append(res.resize, [2]uint64{a, c})
		case OpExpireMs:
			cur.expireMs, cur.hasExp = binary.LittleEndian.Uint64(b[p:]), true
			p += 8
		case OpExpireSec:
			cur.expireMs, cur.hasExp = uint64(binary.LittleEndian.Uint32(b[p:]))*1000, true
			p += 4
		case OpIdle:
			if cur.idle, p, err = walkLen(b, p); err != nil {
				return nil, err
			}
		case OpFreq:
			cur.freq = int(b[p])
			p++
		case OpModuleAux:
			var id, code uint64
			if id, p, err = walkLen(b, p); err != nil {
				return nil, err
			}
			res.modules = append(res.modules, id)
			for {
				if code, p, err = walkLen(b, p); err != nil {
					return nil, err
				}
				if code == 0 {
					break
				}
				switch code {
				case 1, 2:
					_, p, err = walkLen(b, p)
				case 3:
					p += 4
				case 4:
					p += 8
				case 5:
					_, p, err = walkStr(b, p)
				default:
					err = fmt.Errorf("module opcode %d", code)
				}
				if err != nil {
					return nil, err
				}
			}
		default:
			var k []byte
			if k, p, err = walkStr(b, p); err != nil {
				return nil, err
			}
			v, n, err := DecodeValue(op, b[p:])
			if err != nil {
				return nil, fmt.Errorf("key %q type %d: %v", k, op, err)
			}
			cur.db, cur.key, cur.typ, cur.value, cur.start, cur.end = db, string(k), op, v, p, p+n
			res.keys = append(res.keys, cur)
			cur = walked{freq: -1}
			p += n
		}
	}
}

func TestFileBuilder(t *testing.T) {
	r := rand.New(rand.NewSource(99))
	f := NewFile(9)
	if !bytes.Equal(f.Bytes(), []byte("REDIS0009")) || f.Len() != 9 {
		t.Fatalf("header %q", f.Bytes())
	}
	f.Aux([]byte("redis-ver"), []byte("5.0.14"))
	f.Aux([]byte("redis-bits"), []byte("64"))
	f.ModuleAux(0x1234567890ABCDEF, []ModOp{
		{Kind: "uint", Uint: 2}, {Kind: "sint", Int: -5}, {Kind: "float", F: 1.5}, {Kind: "double", F: math.Pi},
		{Kind: "string", Str: []byte("payload")},
	})

	type put struct {
		db    uint64
		key   string
		value Value
		exp   uint64
		idle  uint64
		freq  int
	}
	var puts []put
	dbs := []struct {
		n    uint64
		form LenForm
	}{{0, LenCanonical}, {3, Len14}, {70000, LenCanonical}, {15, Len64}}
	kinds := []string{"string", "list", "set:int", "zset", "hash", "stream"}
	for _, db := range dbs {
		f.SelectDB(db.n, db.form)
		f.ResizeDB(uint64(len(kinds)), 2)
		for i, kind := range kinds {
			v := RandValue(r, kind, 1+r.Intn(8), 30)
			encs := EncodingsFor(kind)
			var typ byte
			var body []byte
			for {
				var err error
				if typ, body, err = EncodeValue(v, encs[r.Intn(len(encs))]); err == nil {
					break
				}
			}
			p := put{db: db.n, key: fmt.Sprintf("k:%d:%d\r\n\x00", db.n, i), value: v, freq: -1}
			switch i % 4 {
			case 0:
				p.exp = 1700000000123
				f.ExpireMs(p.exp)
			case 1:
				p.exp = 1700000000 * 1000
				f.ExpireSec(1700000000)
			case 2:
				p.idle = 100000
				f.Idle(p.idle)
			case 3:
				p.freq = 200
				f.Freq(200)
			}
			var s, e int
			if i%2 == 0 {
				s, e = f.Key([]byte(p.key), typ, body)
			} else {
				s, e = f.KeyForm([]byte(p.key), Len64, typ, body)
			}
			if e != f.Len() || e-s != len(body) || !bytes.Equal(f.Bytes()[s:e], body) {
				t.Fatalf("Key offsets %d..%d (file %d, body %d)", s, e, f.Len(), len(body))
			}
			puts = append(puts, p)
		}
	}
	before := f.Bytes()
	whole := f.Finish(true)
	if !bytes.Equal(whole[:len(before)], before) || len(whole) != len(before)+9 || whole[len(before)] != 0xFF {
		t.Fatal("Finish layout")
	}
	if binary.LittleEndian.Uint64(whole[len(whole)-8:]) != CRC64(0, whole[:len(whole)-8]) {
		t.Fatal("Finish checksum")
	}

	res, err := walkFile(whole, true)
	if err != nil {
		t.Fatal(err)
	}
	if res.version != 9 || res.aux["redis-ver"] != "5.0.14" || res.aux["redis-bits"] != "64" {
		t.Fatalf("header/aux: %+v", res)
	}
	if len(res.modules) != 1 || res.modules[0] != 0x1234567890ABCDEF {
		t.Fatalf("module aux: %x", res.modules)
	}
	if len(res.resize) != len(dbs) || res.resize[0] != [2]uint64{uint64(len(kinds)), 2} {
		t.Fatalf("resizedb: %v", res.resize)
	}
	if len(res.keys) != len(puts) {
		t.Fatalf("%d keys walked, %d written", len(res.keys), len(puts))
	}
	for i, p := range puts {
		k := res.keys[i]
		if k.db != p.db || k.key != p.key || !Equal(k.value, p.value) {
			t.Fatalf("key %d: db %d key %q value %s; want db %d key %q value %s", i, k.db, k.key, k.value.Canon(), p.db, p.key, p.value.Canon())
		}
		if (p.exp != 0) != k.hasExp || k.expireMs != p.exp || k.idle != p.idle || k.freq != p.freq {
			t.Fatalf("key %d: attributes %+v, want %+v", i, k, p)
		}
	}

	// Exact bytes of the individual records.
	g := NewFile(7)
	g.SelectDB(3, Len14)
	g.SelectDB(1<<20, Len14) // widened
	g.ResizeDB(100, 0)
	g.ExpireMs(0x0102030405060708)
	g.ExpireSec(0x0A0B0C0D)
	g.Idle(300)
	g.Freq(9)
	g.Aux([]byte("k"), []byte("vv"))
	g.ModuleAux(5, []ModOp{{Kind: "uint", Uint: 2}, {Kind: "sint", Int: -1}, {Kind: "float", F: 1}, {Kind: "double", F: 1}, {Kind: "string", Str: []byte("s")}})
	g.Key([]byte("ab"), TString, []byte{0x01, 'x'})
	g.KeyForm([]byte("ab"), Len32, TString, []byte{0xC0, 0x07})
	g.Raw([]byte{0xDE, 0xAD})
	want := cat([]byte("REDIS0007"),
		[]byte{0xFE, 0x40, 0x03},
		[]byte{0xFE, 0x80, 0x00, 0x10, 0x00, 0x00},
		[]byte{0xFB, 0x40, 0x64, 0x00},
		[]byte{0xFC, 8, 7, 6, 5, 4, 3, 2, 1},
		[]byte{0xFD, 0x0D, 0x0C, 0x0B, 0x0A},
		[]byte{0xF8, 0x41, 0x2C},
		[]byte{0xF9, 0x09},
		[]byte{0xFA, 0x01, 'k', 0x02, 'v', 'v'},
		[]byte{0xF7, 0x05,
			0x02, 0x02,
			0x01, 0x81, 0xFF, 0xFF, 0xFF, 0xFF, 0xFF, 0xFF, 0xFF, 0xFF,
			0x03, 0x00, 0x00, 0x80, 0x3F,
			0x04, 0, 0, 0, 0, 0, 0, 0xF0, 0x3F,
			0x05, 0x01, 's',
			0x00},
		[]byte{0x00, 0x02, 'a', 'b', 0x01, 'x'},
		[]byte{0x00, 0x80, 0, 0, 0, 2, 'a', 'b', 0xC0, 0x07},
		[]byte{0xDE, 0xAD})
	wantBytes(t, "records", g.Bytes(), want)
	fin := g.Finish(false)
	wantBytes(t, "Finish(false)", fin, cat(want, []byte{0xFF, 0, 0, 0, 0, 0, 0, 0, 0}))

	// Empty file, no checksum.
	e := NewFile(3).Finish(false)
	if res, err := walkFile(e, false); err != nil || res.version != 3 || len(res.keys) != 0 {
		t.Fatalf("empty file: %v", err)
	}
}

// A 40 MiB hash must encode and decode in a few seconds.
func TestBigHash(t *testing.T) {
	if testing.Short() {
		t.Skip("short")
	}
	const fields = 400000
	r := rand.New(rand.NewSource(5))
	v := Value{Kind: "hash", Hash: make([]HF, fields)}
	total := 0
	for i := range v.Hash {
		f := []byte(fmt.Sprintf("field:%08d", i))
		val := make([]byte, 70+r.Intn(40))
		r.Read(val)
		v.Hash[i] = HF{f, val}
		total += len(f) + len(val)
	}
	if total < 38<<20 {
		t.Fatalf("only %d payload bytes", total)
	}
	for _, enc := range []Enc{{Type: THash}, {Type: THash, Str: StrAuto}, {Type: THash, Len: Len64}, {Type: THashZiplist}} {
		t0 := time.Now()
		typ, body, err := EncodeValue(v, enc)
		if err != nil {
			t.Fatal(err)
		}
		t1 := time.Now()
		got, n, err := DecodeValue(typ, body)
		if err != nil || n != len(body) {
			t.Fatalf("decode: n=%d err=%v", n, err)
		}
		t2 := time.Now()
		if !Equal(got, v) {
			t.Fatal("big hash differs")
		}
		t3 := time.Now()
		t.Logf("enc %+v: %d MiB; encode %v, decode %v, equal %v", enc, len(body)>>20, t1.Sub(t0), t2.Sub(t1), t3.Sub(t2))
		if t2.Sub(t0) > 10*time.Second {
			t.Errorf("too slow: %v", t2.Sub(t0))
		}
	}
}
